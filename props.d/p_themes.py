# p_themes engine: C31 C32 C47 (themes/overrides, ASCII renderer, embedded font subsets)
PROPS = {
    "C31": dict(
        engine="p_themes", quick_checks=400, thorough_checks=10000, quick_shards=14, thorough_shards=16, quick_budget_s=400, thorough_budget_s=3000,
        needs_cli=True, level="exploration",
        rule="small generated diagrams (<=6 objects: all shapes, containers, class/sql_table, sequence, grid, markdown/code, tooltips/links, user styles, "
             "labelled connections) compiled with dagre under a light theme drawn from all 20 catalog themes (core: every theme once), given through "
             "RenderOpts or through the in-source d2-config; each compiled diagram is rendered four times: no dark theme, dark themes 200 and 201, and "
             "a light-catalog theme as dark theme; light and dark override sets are random subsets (0, 1-5, 6-17, all 18) of the 18 codes (lower-case "
             "keys in d2-config) with named colours in any letter case, #rgb, #rrggbb, transparent; about 1/60 cases put currentcolor. 1/25 cases pass an "
             "unknown theme ID (light or dark; RenderOpts or d2-config); core adds CLI runs (--theme/--dark-theme/D2_THEME/D2_DARK_THEME with unknown "
             "IDs, two positive controls checked by the same oracle). Oracle: own CSS reader over the one theme <style>: for each of 18 codes x "
             "{fill,stroke,background-color,color} a rule .<root hash> .<prop>-<code>{<prop>:<v>} exists in the base block with v == override if given "
             "else the catalog colour of the light theme (case-insensitive), likewise inside @media screen and (prefers-color-scheme:dark) with the "
             "dark theme / dark overrides, and no dark block without a dark theme; colours of the .md variables and of .appendix text.text belong to "
             "the resolved palette of their block; without a dark theme every SVG element with class <prop>-<code> carries the attribute <prop> equal "
             "to the resolved light colour; unknown IDs: d2lib.Compile or d2svg.Render returns an error / the CLI exits non-zero. "
             "non-trivial = >=3 overrides (light+dark) or a rejected unknown ID.",
        assumptions=["'rejected' = some stage of the pipeline (d2lib.Compile, d2svg.Render, CLI exit status) reports an error; which stage is recorded as a label",
                     "HTML elements inside <foreignObject> (markdown div) carrying a colour class without an inline colour are counted gray: an XML "
                     "attribute has no meaning on them and the statement speaks of inline colours of the drawing",
                     "with a dark theme requested nothing is asserted about inline colours"],
    ),
    "C32": dict(
        engine="p_themes", quick_checks=300, thorough_checks=8000, quick_shards=14, thorough_shards=16, quick_budget_s=400, thorough_budget_s=3000,
        level="exploration",
        rule="gen.GenDiagram (1-14 objects, nesting <=3, all shapes, containers, class/sql_table, grids, sequence diagrams, constant nears, icons, "
             "styles incl. 3d/multiple, tooltips/links, connections leaf/container/self-loop/parallel with labels and arrowhead labels; no explicit sizes, no "
             "label/icon positions) laid out with ELK (the CLI switches to ELK for text output); 3/4 of the cases in class 'ascii' (ASCIIOnly labels and plain names; "
             "what is left non-ASCII is transliterated so the whole source is 7-bit), 1/4 in class 'unicode' (hostile names, non-ASCII labels, markdown/code/latex "
             "blocks); every laid-out diagram is rendered by d2ascii.NewASCIIartist().Render with charset.ASCII and charset.Unicode and Scale nil / {nil,0.5,2} / one "
             "of {0.25,0.75,1,1.5,3}; core = 13 ASCII + 3 Unicode snippets. Oracle: Render neither panics (own recover, signature = innermost d2 frame) nor "
             "returns an error; class ascii + charset.ASCII: every rune of the output is < 0x80; both charsets, both classes: the trimmed single-line label of "
             "every plain shape (exported type rectangle/square, no child, no icon, no language, label position INSIDE_MIDDLE_CENTER) occurs in the output at "
             "least as often as plain shapes carry it. A lost label is classified by experiment on the same laid-out diagram (non-ASCII label / back when connection and "
             "arrowhead labels are blanked / back when connections are removed / back when the other shapes' labels are blanked, or some label has more "
             "characters than its box has columns / in-sequence, multiple, 3d / plain). non-trivial = >=3 shapes and >=1 "
             "labelled connection.",
        assumptions=["the input domain is the exported diagram: labels are compared as exported (after text-transform / caps-lock)",
                     "a label lost because the LAYOUT puts another unrelated shape over the box (e.g. two objects with the same constant near) is counted gray",
                     "RenderOpts.Scale is passed as the CLI does; the renderer currently ignores it",
                     "class 'unicode' with charset.ASCII: nothing is asserted about the output bytes"],
    ),
    "C47": dict(
        engine="p_themes", quick_checks=400, thorough_checks=10000, quick_shards=14, thorough_shards=16, quick_budget_s=400, thorough_budget_s=3000,
        level="exploration",
        rule="own generator: 2-5 objects drawn from plain/styled shapes (all simple shapes; bold, italic, mono, underline, text-transform uppercase/lowercase/"
             "capitalize/none; tooltip, tooltip.near, link), class (fields, methods, visibility), sql_table (columns, types, constraints incl. free text), code "
             "blocks (go/js/txt/python), markdown blocks (headings 1-6, bold/italic/both, code spans, lists, quotes, tables, strike-through, links, <kbd>, HTML "
             "entities), text shapes, containers; 1-3 connections with styled labels and source/target arrowhead labels; 1/5 with a d2-legend; words of 1-8 "
             "runes from 30 Unicode ranges (Latin-1, Latin Extended-A/B/Additional, IPA, modifiers, combining marks, Greek (+Extended), Cyrillic (+Supplement), "
             "punctuation, super/subscripts, currency, letterlike, number forms, arrows, math, technical, box drawing, geometric, symbols, dingbats, "
             "presentation forms; CJK, kana, emoji, math alphanumerics that the fonts lack) or ASCII; themes 0,1,3,200,300,301 (caps-lock + mono),302,303; dagre, "
             "sketch off; 1/4 of the cases also run appendix.Append (numbers, tooltip and link text; full fonts). core = 8 snippets x themes 0,300,301,200. "
             "Oracle: every @font-face with a data:application/font-woff;base64 URI is decoded (WOFF1 -> sfnt, zlib tables; raw sfnt accepted) and parsed with "
             "x/image/font/sfnt; own CSS reader resolves font-family for every drawn character-data fragment (<text>/<tspan> and HTML inside <foreignObject>; not "
             "style/title/desc) by selector matching, specificity, order and inheritance over all <style> sheets; for every rune (controls and U+FEFF excluded) "
             "drawn in a family with an embedded face: if the complete d2 face of that family/style (FontFaces.Get) has a glyph, the embedded face has one too and "
             "LoadGlyph succeeds; font-family lists / rules with selectors the reader does not understand add candidates (then one candidate suffices). "
             "non-trivial = >=10 distinct non-ASCII runes drawn.",
        assumptions=["a fragment whose CSS family has no @font-face in the document (or no font-family at all, e.g. a positioned markdown tooltip in a diagram "
                     "without markdown labels) is outside the statement (it speaks of embedded subsets): labelled, not asserted",
                     "characters produced by CSS (list markers) are not character data of the SVG and are not considered",
                     "family names map to d2 faces by their suffix (-font-regular/bold/italic/semibold/mono/mono-bold/mono-italic) and Diagram.FontFamily/MonoFontFamily"],
    ),
}
