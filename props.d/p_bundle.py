# p_bundle engine: C46
PROPS = {
    "C46": dict(
        engine="p_bundle", quick_checks=10000, thorough_checks=16000, quick_shards=14, thorough_shards=16,
        quick_budget_s=240, thorough_budget_s=1500, thorough_race=True,
        needs_cli=False, gomaxprocs=[4, 8, 2, 4], level="fault_enumeration",
        rule="placeholder",
        assumptions=[],
    ),
}
