# p_bundle engine: C46
PROPS = {
    "C46": dict(
        engine="p_bundle", quick_checks=6000, thorough_checks=16000, quick_shards=14, thorough_shards=16,
        quick_budget_s=300, thorough_budget_s=1500, thorough_race=True,
        gomaxprocs=[4, 8, 2, 4],  # per shard; 14-16 shards x 16 procs only makes the runtimes spin against each other
        needs_cli=False, level="fault_enumeration",
        rule="a case = SVG-like document (d2-style prolog/style/g/text around the references, duplicates of an href, an image that already is a "
             "data: URI, lookalike elements that are no references, escaped &amp;/&#39; in hrefs, relative/absolute/sub-directory/../ paths, "
             "stdin input path) over 1-6 distinct images (rarely 17-23: more than the 16 workers) that are local FIFOs/regular files or URLs of "
             "a loopback HTTP server, a failing subset (local: missing, directory, dangling symlink; remote: 404, 500, reset connection, "
             "truncated body, body over 32 MiB) and 1-4 (core: all n!) release orders. The harness releases the workers in that order: FIFO "
             "write / HTTP handler gate, then a gate inside the worker's last log call (our simplelog.Logger), one worker at a time (strict), "
             "I/O gates only (io), all I/O first then results in order (pileup) or everything at once (burst). BundleLocal, BundleRemote or both "
             "in CLI order; with and without the bundler's cache. Core: for n<=4 (thorough n<=5) images x {local, remote, mixed} every failure "
             "subset with every order (n<=3 also under io/pileup/burst), wide, cache, stdin, big/empty content, n=6 selections. Oracle per "
             "schedule: output == independent sequential reference (hand-written scanner; loaded eligible href -> data:<mime>;base64,<content>, "
             "everything else byte-identical), error nil iff nothing fails, error text mentions every failing href and no other href of the case; "
             "all schedules of a case give the same bytes. non-trivial = >=3 eligible images, >=1 failure, some release order != document order, "
             "no gate timed out.",
        assumptions=[
            "MIME rule taken from imgbundler.worker/sniffMimeType: Content-Type header of the response if present, else extension of the href "
            "(raw href text for local files, URL path for remote), else http.DetectContentType; 'text/xml' -> 'image/svg+xml'; octet-stream "
            "containing '<svg' -> 'image/svg+xml' (the reference uses the same stdlib mime tables)",
            "eligible = first-occurrence-distinct href not starting with 'data:' whose unescaped form has an http* scheme (BundleRemote) or not (BundleLocal)",
            "the output returned together with an error is checked too (the CLI keeps using it)",
            "the release order is enforced through blocking I/O and the logger only; measured on an instrumented copy the collecting loop saw "
            "exactly the requested order in 98-100% of strict schedules. A gate that times out degrades the schedule (counted, case not "
            "non-trivial), never a violation; a bundler that never returns is left to the per-case watchdog",
            "thorough runs under -race without the 32 MiB response case (minutes under instrumentation); a data race makes the Go test fail "
            "without a recorded case, which the driver reports as inconclusive",
        ],
    ),
}
