# p_layout engine: C17-C24 C26 C28 C29
_GEN = ("structured compilable diagrams (1-14 objects, nesting <=3, all shapes, labels incl. markdown/code/latex/non-ASCII, icons, "
        "label/icon positions, explicit sizes, styles incl. 3d/multiple/shadow, class/sql_table, grids, sequence diagrams, constant nears, "
        "directions, connections leaf/container/self-loop/parallel with labels and arrowheads; hostile names), laid out with dagre (3/4) or ELK (1/4); "
        "core = ~19 construct snippets x both engines")
PROPS = {
    "C17": dict(
        engine="p_layout", quick_checks=700, thorough_checks=20000, quick_shards=14, thorough_shards=16, quick_budget_s=400, thorough_budget_s=3000,
        rule=_GEN + " plus every hostile name as node/container/connection end. oracle: layout returns no error and does not panic; every object "
             "has a finite position and finite non-negative size; every non-lifeline connection has >=2 finite route points; export and "
             "d2svg.Render succeed (all boards). non-trivial = >=4 objects, >=1 container, >=1 connection. per-case watchdog 180 s (typical 0.1-0.6 s).",
    ),
    "C18": dict(
        engine="p_layout", quick_checks=700, thorough_checks=20000, quick_shards=14, thorough_shards=16, quick_budget_s=400, thorough_budget_s=3000,
        rule=_GEN + "; half of the cases wrap the diagram into an outer container next to a near group with an inner connection. oracle: structure "
             "snapshot (object AbsIDs in order, parent of each, ordered children, connections with endpoints in order; lifeline edges removed; children "
             "inside sequence diagrams compared as sets) of d2compiler.Compile(text) equals that of the graph returned by d2lib.Compile after layout, "
             "for every board. non-trivial = >=2 special diagrams (grid/sequence/near group) or one crossed by connections.",
    ),
    "C19": dict(
        engine="p_layout", quick_checks=700, thorough_checks=20000, quick_shards=14, thorough_shards=16, quick_budget_s=400, thorough_budget_s=3000,
        rule=_GEN + ". oracle (independent box algebra on the laid-out graph): each child box inside its container's box and siblings pairwise disjoint, "
             "tolerance 1 px; objects inside sequence diagrams excluded. non-trivial = a container with >=2 children or >=4 root siblings.",
    ),
    "C24": dict(
        engine="p_layout", quick_checks=600, thorough_checks=16000, quick_shards=14, thorough_shards=16, quick_budget_s=400, thorough_budget_s=3000,
        rule="random main content (<=10 objects, containers, labels, sizes, directions) plus 1-8 near shapes (labelled leaf, container with inner "
             "connection, sized shape) over all 8 constants, dagre/ELK; core = every constant x both engines. oracle: near box entirely beyond the "
             "bounding box of the main root-level shapes on each named side (1 px), and for *-center the centre coordinate equals that of the shapes-only "
             "box or of the box extended by routes (the statement does not say which), +-1.5 px. non-trivial = >=3 main objects and >=2 nears.",
    ),
}
