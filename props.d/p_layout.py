# p_layout engine: C17-C24 C26 C28 C29
_GEN = ("structured compilable diagrams (1-14 objects, nesting <=3, all shapes, labels incl. markdown/code/latex/non-ASCII, icons, "
        "label/icon positions, explicit sizes, styles incl. 3d/multiple/shadow, class/sql_table, grids, sequence diagrams, constant nears, "
        "directions, connections leaf/container/self-loop/parallel with labels and arrowheads; hostile names), laid out with dagre (3/4) or ELK (1/4); "
        "core = ~19 construct snippets x both engines")
PROPS = {
    "C17": dict(
        engine="p_layout", quick_checks=700, thorough_checks=20000, quick_shards=14, thorough_shards=16, quick_budget_s=400, thorough_budget_s=3000,
        rule=_GEN + " plus every hostile name as node/container/connection end. oracle: layout returns no error and does not panic; every object "
             "has a finite position and finite non-negative size; every non-lifeline connection has >=2 finite route points; export and "
             "d2svg.Render succeed (all boards). non-trivial = >=4 objects, >=1 container, >=1 connection. per-case watchdog 180 s (typical 0.1-0.6 s).",
    ),
    "C18": dict(
        engine="p_layout", quick_checks=700, thorough_checks=20000, quick_shards=14, thorough_shards=16, quick_budget_s=400, thorough_budget_s=3000,
        rule=_GEN + "; half of the cases wrap the diagram into an outer container next to a near group with an inner connection. oracle: structure "
             "snapshot (object AbsIDs in order, parent of each, ordered children, connections with endpoints in order; lifeline edges removed; children "
             "inside sequence diagrams compared as sets) of d2compiler.Compile(text) equals that of the graph returned by d2lib.Compile after layout, "
             "for every board. non-trivial = >=2 special diagrams (grid/sequence/near group) or one crossed by connections.",
    ),
    "C19": dict(
        engine="p_layout", quick_checks=700, thorough_checks=20000, quick_shards=14, thorough_shards=16, quick_budget_s=400, thorough_budget_s=3000,
        rule=_GEN + ". oracle (independent box algebra on the laid-out graph): each child box inside its container's box and siblings pairwise disjoint, "
             "tolerance 1 px; objects inside sequence diagrams excluded. non-trivial = a container with >=2 children or >=4 root siblings.",
    ),
    "C24": dict(
        engine="p_layout", quick_checks=600, thorough_checks=16000, quick_shards=14, thorough_shards=16, quick_budget_s=400, thorough_budget_s=3000,
        rule="random main content (<=10 objects, containers, labels, sizes, directions) plus 1-8 near shapes (labelled leaf, container with inner "
             "connection, sized shape) over all 8 constants, dagre/ELK; core = every constant x both engines. oracle: near box entirely beyond the "
             "bounding box of the main root-level shapes on each named side (1 px), and for *-center the centre coordinate equals that of the shapes-only "
             "box or of the box extended by routes (the statement does not say which), +-1.5 px. non-trivial = >=3 main objects and >=2 nears.",
    ),
    "C20": dict(
        engine="p_layout", quick_checks=700, thorough_checks=20000, quick_shards=14, thorough_shards=16, quick_budget_s=400, thorough_budget_s=3000,
        rule=_GEN + "; 2/3 of the cases come from the tame class (undecorated rectangular containers, no self-loops, no container endpoints) on which the "
             "property is asserted strictly, 1/3 from the unrestricted generator. oracle: distance from the first/last route point to the union of "
             "(outline from flattening the shape's SVG path data or ellipse, box border, the same shifted by the 3D/multiple offset, padded "
             "outside-label box border, outside-icon box border) <= 3 px; sequence-diagram messages excluded; histogram of deviations in the "
             "evidence. non-trivial = some endpoint is non-rectangular, a container or 3d/multiple.",
    ),
    "C22": dict(
        engine="p_layout", quick_checks=2000, thorough_checks=40000, quick_shards=14, thorough_shards=16, quick_budget_s=400, thorough_budget_s=3000,
        rule="grids with 0-30 cells (explicit random sizes, nested containers, empty cells), any subset and order of grid-rows/grid-columns/grid-gap/"
             "vertical-gap/horizontal-gap; core = 8 cell counts x 9 setting lists. oracle: children listed in declaration order; cells pairwise "
             "disjoint and inside the grid box (1 px); consecutive cells: same line => separated by >= the configured gap, otherwise the next "
             "line starts beyond the previous cell plus the gap (row-major if rows come first/only, else column-major); with rows and columns and no "
             "overflow: equal height per row, equal width per column, neighbours exactly one gap apart. non-trivial = >=5 cells of >=3 distinct sizes.",
        assumptions=["the default gap is 40 (documentation)", "when there are more cells than rows x columns the placement of the overflow is not asserted"],
    ),
    "C23": dict(
        engine="p_layout", quick_checks=2000, thorough_checks=50000, quick_shards=14, thorough_shards=16, quick_budget_s=400, thorough_budget_s=3000,
        rule="sequence diagrams (root or nested in a container with an outside connection): 1-8 actors (default or person/cylinder/oval/queue/"
             "diamond/cloud), 0-30 messages with all arrow forms, spans on either end, self messages, notes, groups; one statement per line. oracle on "
             "the exported diagram: actor centres strictly increase in declaration order, default-shape actors share a bottom edge; messages are "
             "exported in declaration order and their start y strictly increases; a message between different actors is one horizontal 2-point "
             "segment whose ends lie on the actor's lifeline (centre x) or on the border of the addressed span, within the span's height. "
             "non-trivial = >=3 actors, >=5 messages and a span or self message.",
    ),
    "C21": dict(
        engine="p_layout", quick_checks=1000, thorough_checks=25000, quick_shards=14, thorough_shards=16, quick_budget_s=400, thorough_budget_s=3000,
        rule="2-5 leaf shapes per diagram: every shape type incl. text/code/class/sql_table x labels (short, 1-25 words, multi-line, non-ASCII wide/"
             "narrow glyphs, empty) x font-size 8-100, bold, italic, mono x icon x explicit dimensions (both, one, none), dagre/ELK; core = every "
             "shape with a long label and with 123x123. oracle after layout: both dimensions given => exactly that size (square/circle: the larger for "
             "both; class/sql_table/code: >= requested); no dimension given, label inside and no icon => the text area (GetInnerBox of the final box) "
             ">= label dimensions - 1 px and inside the box. non-trivial = non-rectangular shape or label > 20 runes.",
    ),
    "C26": dict(
        engine="p_layout", quick_checks=500, thorough_checks=12000, quick_shards=14, thorough_shards=16, quick_budget_s=400, thorough_budget_s=3000,
        rule=_GEN + ". oracle A: own comparator (canonical attributes, hierarchy and order, connections with endpoints/arrows/index, plus boxes, label and "
             "icon positions, label dimensions, routes, curve flags, table column indexes, z-index) finds g == Deserialize(Serialize(g)) before and after "
             "layout. oracle B: laying out through exactly the sequence exec.go/serve.go perform (Serialize -> Deserialize -> Layout -> Serialize -> "
             "Deserialize) renders to byte-identical SVG as in-process layout. non-trivial = IDs needing quotes, class/table, or a nested container.",
        assumptions=["the real plugin subprocess is replaced by an in-process wrapper performing the same serialisation steps"],
    ),
    "C28": dict(
        engine="p_layout", quick_checks=280, thorough_checks=8000, quick_shards=14, thorough_shards=16, quick_budget_s=400, thorough_budget_s=3000,
        rule="1-6 objects (any shape incl. class/sql_table/text, every 4th a container) and 0-5 connections with random sets of 1-6 style keywords and "
             "in-domain values, compiled, laid out with a stub core layout (1/9 with real dagre and one theme) and exported under EVERY theme of the "
             "light and dark catalogs; core = all style keywords at once on 10 shape kinds. oracle: len(Shapes)==len(Objects) with equal IDs in order, "
             "connections likewise with source and destination IDs, and every style value the user set is found unchanged in the exported field "
             "(text-transform through the label). non-trivial = >=3 user style values per theme.",
    ),
    "C29": dict(
        engine="p_layout", quick_checks=600, thorough_checks=15000, quick_shards=14, thorough_shards=16, quick_budget_s=400, thorough_budget_s=3000,
        rule=_GEN + " with a random padding 0-200. oracle A: every element enumerated independently from the exported diagram (shape boxes +- half "
             "stroke, 3d/multiple/shadow extents, outside label and icon boxes, route points, connection label boxes) lies inside BoundingBox() +-1. "
             "oracle B: the inner viewBox contains the bounding box plus the padding, and every primitive drawn in the SVG (rect, ellipse, circle, "
             "image, foreignObject, line, flattened path; outside defs/mask/marker/pattern; enclosing translate() applied) lies inside the viewBox +-1. "
             "non-trivial = outside label/icon, 3d/multiple/shadow, or arrowhead label.",
    ),
}
